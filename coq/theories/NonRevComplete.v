(* Completeness of the non-revocation proof: honest responses to any challenge make the verifier
   reconstruct exactly the commitments the prover hashed. *)
From Coq Require Import ZArith List Bool Lia.
From Gabi Require Import Val ModArith GoSem ParamsDef ZkProof Keys NonRev NonRevProver SignedPow ZkComplete.
From GabiGen Require Import Consts.
Import ListNotations.
Open Scope Z_scope.

Definition nr_stmt_true (pk : pubkey) (c : nrcommit) (s : qrstruct) : Prop :=
  exists lhs linv,
    lhs_fold true (pk_N pk) (nc_bases pk (nc_cu c) (nc_cr c) (nc_nu c)) (q_lhs s) 0 1 = Ok lhs /\
    go_modinverse lhs (pk_N pk) = Some linv /\
    rhs_fold true (pk_N pk) (nc_bases pk (nc_cu c) (nc_cr c) (nc_nu c)) (nc_secret c) (q_rhs s) 0 1 = Ok (lhs mod pk_N pk).

Definition nr_units (pk : pubkey) (c : nrcommit) (s : qrstruct) : Prop :=
  forall r, In r (q_rhs s) -> exists b bi, nc_bases pk (nc_cu c) (nc_cr c) (nc_nu c) (rhs_base r) = Some b /\
                                            go_modinverse b (pk_N pk) = Some bi.

Lemma resolve_exists pk c vals s :
  nr_units pk c s -> (forall r, In r (q_rhs s) -> exists x, vals (rhs_secret r) = Some x) ->
  exists ts, resolve_q (pk_N pk) (nc_bases pk (nc_cu c) (nc_cr c) (nc_nu c)) vals (q_rhs s) = Some ts.
Proof.
  unfold nr_units. generalize (q_rhs s) as l. induction l as [|r rest IH]; intros Hu Hv; cbn [resolve_q].
  - eexists; reflexivity.
  - destruct (Hu r (or_introl eq_refl)) as (b & bi & Hb & Hi). destruct (Hv r (or_introl eq_refl)) as (x & Hx).
    destruct IH as (ts & Hts).
    { intros r0 Hr0. apply Hu. now right. } { intros r0 Hr0. apply Hv. now right. }
    rewrite Hb, Hx, Hts, Hi. eexists; reflexivity.
Qed.

Definition resp_lookup (resp : list (Z * option Z)) (s : sname) : option Z := lookup_ptr resp (sname_key s).

Lemma build_proof_lookup c ch resp : nr_build_proof c ch = Ok resp ->
  forall s x y, In s [Salpha; Sbeta; Sdelta; Sepsilon; Szeta] ->
  nc_secret c s = Some x -> nc_randomizer c s = Some y -> resp_lookup resp s = Some (y + ch * x).
Proof.
  unfold nr_build_proof. cbn [omap].
  destruct (lookup (nc_rand c) 0) as [a0|] eqn:A0; cbn [deref obind]; [|discriminate].
  destruct (lookup (nc_secrets c) 0) as [b0|] eqn:B0; cbn [deref obind]; [|discriminate].
  destruct (lookup (nc_rand c) 1) as [a1|] eqn:A1; cbn [deref obind]; [|discriminate].
  destruct (lookup (nc_secrets c) 1) as [b1|] eqn:B1; cbn [deref obind]; [|discriminate].
  destruct (lookup (nc_rand c) 2) as [a2|] eqn:A2; cbn [deref obind]; [|discriminate].
  destruct (lookup (nc_secrets c) 2) as [b2|] eqn:B2; cbn [deref obind]; [|discriminate].
  destruct (lookup (nc_rand c) 3) as [a3|] eqn:A3; cbn [deref obind]; [|discriminate].
  destruct (lookup (nc_secrets c) 3) as [b3|] eqn:B3; cbn [deref obind]; [|discriminate].
  destruct (lookup (nc_rand c) 4) as [a4|] eqn:A4; cbn [deref obind]; [|discriminate].
  destruct (lookup (nc_secrets c) 4) as [b4|] eqn:B4; cbn [deref obind]; [|discriminate].
  intros H; inversion H; subst resp. clear H.
  intros s x y Hin Hx Hy. unfold nc_secret, nc_randomizer, resp_lookup in *.
  destruct Hin as [<-|[<-|[<-|[<-|[<-|[]]]]]]; cbn [sname_key] in *;
    unfold k_alpha, k_beta, k_delta, k_epsilon, k_zeta in *; cbn [lookup_ptr Z.eqb Pos.eqb];
    try (rewrite ?A0, ?A1, ?A2, ?A3, ?A4, ?B0, ?B1, ?B2, ?B3, ?B4 in *; inversion Hx; inversion Hy; subst; reflexivity).
Qed.

Lemma five_names s : In s [ps_cr; ps_nu; ps_one] -> forall r, In r (q_rhs s) -> In (rhs_secret r) [Salpha; Sbeta; Sdelta; Sepsilon; Szeta].
Proof.
  intros [<-|[<-|[<-|[]]]] r Hr; cbn in Hr; repeat (destruct Hr as [<-|Hr]; [cbn; tauto|]); destruct Hr.
Qed.

(* one structure *)
Lemma nr_structure_complete pk c ch resp s :
  1 < pk_N pk -> 0 <= ch -> In s [ps_cr; ps_nu; ps_one] ->
  (forall k, In k [Salpha; Sbeta; Sdelta; Sepsilon; Szeta] -> exists x y, nc_secret c k = Some x /\ nc_randomizer c k = Some y) ->
  nr_build_proof c ch = Ok resp ->
  nr_stmt_true pk c s -> nr_units pk c s ->
  qr_from_proof_gen true (pk_N pk) (nc_bases pk (nc_cu c) (nc_cr c) (nc_nu c)) (resp_lookup resp) ch s =
  qr_from_secrets_gen true (pk_N pk) (nc_bases pk (nc_cu c) (nc_cr c) (nc_nu c)) (nc_randomizer c) s.
Proof.
  intros Hn Hc Hs Hall Hb (lhs & linv & Hl & Hi & Ht) Hu.
  pose proof (build_proof_lookup c ch resp Hb) as Hlook.
  assert (V1 : forall r, In r (q_rhs s) -> exists x, nc_secret c (rhs_secret r) = Some x).
  { intros r Hr. destruct (Hall _ (five_names s Hs r Hr)) as (x & y & Hx & Hy). eauto. }
  assert (V2 : forall r, In r (q_rhs s) -> exists x, nc_randomizer c (rhs_secret r) = Some x).
  { intros r Hr. destruct (Hall _ (five_names s Hs r Hr)) as (x & y & Hx & Hy). eauto. }
  assert (V3 : forall r, In r (q_rhs s) -> exists x, resp_lookup resp (rhs_secret r) = Some x).
  { intros r Hr. destruct (Hall _ (five_names s Hs r Hr)) as (x & y & Hx & Hy).
    exists (y + ch * x). apply Hlook; [apply (five_names s Hs r Hr)|assumption|assumption]. }
  destruct (resolve_exists pk c _ s Hu V1) as (ts_s & R1).
  destruct (resolve_exists pk c _ s Hu V2) as (ts_r & R2).
  destruct (resolve_exists pk c _ s Hu V3) as (ts_v & R3).
  eapply (qr_complete_lem true (pk_N pk) _ (nc_secret c) (nc_randomizer c) (resp_lookup resp) ch s lhs linv ts_s ts_r ts_v); try eassumption.
  intros r x y z Hr Hx Hy Hz. rewrite (Hlook _ x y (five_names s Hs r Hr) Hx Hy) in Hz. now inversion Hz.
Qed.

(* Honest responses make the verifier reconstruct the hashed commitments: for the proof assembled from the
   commit (C_r, C_u, nu), the honest responses and the challenge, the challenge contributions are the
   commitments of nr_commit. The three relations are those NewProofCommit checks (isTrue) before committing. *)
Theorem nr_complete_lem pk u e nu r2 r3 ra rb rd re rz l c ch resp sacc :
  1 < pk_N pk -> 0 <= ch ->
  nr_commit pk u e nu r2 r3 ra rb rd re rz = Ok (l, c) ->
  nr_build_proof c ch = Ok resp ->
  (forall s, In s [ps_cr; ps_nu; ps_one] -> nr_stmt_true pk c s /\ nr_units pk c s) ->
  nr_challenge_contributions pk (mkNr (Some (nc_cr c)) (Some (nc_cu c)) (Some (nc_nu c)) (Some ch) (Some resp) sacc)
  = Ok (map Some l).
Proof.
  intros Hn Hc Hcommit Hb Hst.
  unfold nr_commit in Hcommit.
  destruct (pk_G pk) as [g|] eqn:EG; cbn [deref obind] in Hcommit; [|discriminate].
  destruct (pk_H pk) as [h|] eqn:EH; cbn [deref obind] in Hcommit; [|discriminate].
  set (cr := (powx (pk_N pk) g r2 * powx (pk_N pk) h r3) mod pk_N pk) in *.
  set (cu := (u * powx (pk_N pk) h r2) mod pk_N pk) in *.
  set (c0 := mkNc cu cr nu [(0, e); (1, e * r2); (2, e * r3); (3, r2); (4, r3)] [(0, ra); (1, rb); (2, rd); (3, re); (4, rz)]) in *.
  destruct (qr_from_secrets_gen true (pk_N pk) (nc_bases pk cu cr nu) (nc_randomizer c0) ps_cr) as [c1| |] eqn:Q1; cbn [obind] in Hcommit; try discriminate.
  destruct (qr_from_secrets_gen true (pk_N pk) (nc_bases pk cu cr nu) (nc_randomizer c0) ps_nu) as [c2| |] eqn:Q2; cbn [obind] in Hcommit; try discriminate.
  destruct (qr_from_secrets_gen true (pk_N pk) (nc_bases pk cu cr nu) (nc_randomizer c0) ps_one) as [c3| |] eqn:Q3; cbn [obind] in Hcommit; try discriminate.
  inversion Hcommit; subst l c. clear Hcommit.
  assert (Hall : forall k, In k [Salpha; Sbeta; Sdelta; Sepsilon; Szeta] -> exists x y, nc_secret c0 k = Some x /\ nc_randomizer c0 k = Some y).
  { intros k [<-|[<-|[<-|[<-|[<-|[]]]]]]; eexists; eexists; split; reflexivity. }
  unfold nr_challenge_contributions. cbn [nr_Cr nr_Cu nr_Nu nr_Chal deref obind].
  change (nr_bases pk (Some (nc_cr c0)) (Some (nc_cu c0)) (Some (nc_nu c0))) with (nc_bases pk (nc_cu c0) (nc_cr c0) (nc_nu c0)).
  assert (Hres : forall s0, nr_result (mkNr (Some (nc_cr c0)) (Some (nc_cu c0)) (Some (nc_nu c0)) (Some ch) (Some resp) sacc) s0 = resp_lookup resp s0) by reflexivity.
  assert (E : forall s0, In s0 [ps_cr; ps_nu; ps_one] ->
     qr_from_proof_gen true (pk_N pk) (nc_bases pk (nc_cu c0) (nc_cr c0) (nc_nu c0))
       (nr_result (mkNr (Some (nc_cr c0)) (Some (nc_cu c0)) (Some (nc_nu c0)) (Some ch) (Some resp) sacc)) ch s0 =
     qr_from_secrets_gen true (pk_N pk) (nc_bases pk (nc_cu c0) (nc_cr c0) (nc_nu c0)) (nc_randomizer c0) s0).
  { intros s0 Hs0. destruct (Hst s0 Hs0) as [T U].
    rewrite <- (nr_structure_complete pk c0 ch resp s0 Hn Hc Hs0 Hall Hb T U). reflexivity. }
  rewrite (E ps_cr) by (cbn; tauto). rewrite (E ps_nu) by (cbn; tauto). rewrite (E ps_one) by (cbn; tauto).
  cbn [nc_cu nc_cr nc_nu c0]. rewrite Q1, Q2, Q3. cbn [obind map]. reflexivity.
Qed.

(* the hypotheses are satisfiable: a toy key N = 7 * 11, g = 4, h = 9, witness u = 16, e = 3, nu = u^e *)
Example nr_complete_nonvacuous :
  let pk := mkPk 77 4 9 (Some 4) (Some 9) [16] params_1024 0 true in
  exists l c, nr_commit pk 16 3 15 2 5 11 12 13 14 15 = Ok (l, c) /\
              forall s, In s [ps_cr; ps_nu; ps_one] -> nr_stmt_true pk c s /\ nr_units pk c s.
Proof.
  cbv zeta. eexists; eexists. split; [vm_compute; reflexivity|].
  intros s [<-|[<-|[<-|[]]]]; (split; [eexists; eexists; repeat split; vm_compute; reflexivity|]);
    intros r Hr; cbn in Hr; repeat (destruct Hr as [<-|Hr]; [eexists; eexists; split; vm_compute; reflexivity|]); destruct Hr.
Qed.
