(* revocation/proof.go prover side: commit, refresh (ProofCommit.Update), BuildProof. *)
From Coq Require Import ZArith List Lia Bool.
From Gabi Require Import Val ModArith GoSem ParamsDef ZkProof Keys NonRev.
From GabiGen Require Import Consts.
Import ListNotations.
Open Scope Z_scope.

Record nrcommit := mkNc {
  nc_cu : Z; nc_cr : Z; nc_nu : Z;
  nc_secrets : list (Z * Z);      (* alpha beta delta epsilon zeta by key 0..4 *)
  nc_rand : list (Z * Z)
}.

Definition nc_secret (c : nrcommit) (s : sname) : option Z := lookup (nc_secrets c) (sname_key s).
Definition nc_randomizer (c : nrcommit) (s : sname) : option Z := lookup (nc_rand c) (sname_key s).

Definition nc_bases (pk : pubkey) (cu cr nu : Z) (b : bname) : option Z :=
  nr_bases pk (Some cr) (Some cu) (Some nu) b.

(* proof.go:376 commitmentsFromSecrets ; (u, e) the witness, nu the accumulator;
   randomness: r2 r3 and the five randomizers *)
Definition nr_commit (pk : pubkey) (u e nu : Z) (r2 r3 ra rb rd re rz : Z)
  : outcome (list Z * nrcommit) :=
  let n := pk_N pk in
  let! g := deref (pk_G pk) in
  let! h := deref (pk_H pk) in
  let cr := (powx n g r2 * powx n h r3) mod n in
  let cu := (u * powx n h r2) mod n in
  let c := mkNc cu cr nu [(0, e); (1, e * r2); (2, e * r3); (3, r2); (4, r3)]
                      [(0, ra); (1, rb); (2, rd); (3, re); (4, rz)] in
  let bases := nc_bases pk cu cr nu in
  let! c1 := qr_from_secrets_gen true n bases (nc_randomizer c) ps_cr in
  let! c2 := qr_from_secrets_gen true n bases (nc_randomizer c) ps_nu in
  let! c3 := qr_from_secrets_gen true n bases (nc_randomizer c) ps_one in
  Ok ([cr; cu; nu; c1; c2; c3], c).

(* proof.go:150 NewProofCommit : refuses an invalid witness *)
Definition new_proof_commit (pk : pubkey) (u e nu : Z) (r2 r3 ra rb rd re rz : Z)
  : outcome (list Z * nrcommit) :=
  if negb (powx (pk_N pk) u e =? nu) then Err
  else nr_commit pk u e nu r2 r3 ra rb rd re rz.

(* proof.go:246 ProofCommit.Update : refresh for an updated witness (u', nu'); cu is left
   unreduced exactly as in the Go code *)
Definition nr_refresh (pk : pubkey) (c : nrcommit) (commitments : list Z) (u' nu' : Z)
  : outcome (list Z * nrcommit) :=
  let n := pk_N pk in
  let! h := deref (pk_H pk) in
  let! eps := deref (nc_secret c Sepsilon) in
  let cu := powx n h eps * u' in
  let c' := mkNc cu (nc_cr c) nu' (nc_secrets c) (nc_rand c) in
  let! l0 := qr_from_secrets_gen true n (nc_bases pk cu (nc_cr c) nu') (nc_randomizer c') ps_nu in
  match commitments with
  | [a0; _; _; a3; _; a5] => Ok ([a0; cu; nu'; a3; l0; a5], c')
  | _ => Panic
  end.

(* proof.go:229 BuildProof ; alpha is deleted from the responses by the disclosure builder *)
Definition nr_build_proof (c : nrcommit) (challenge : Z) : outcome (list (Z * option Z)) :=
  omap (fun k => let! r := deref (lookup (nc_rand c) k) in
                 let! s := deref (lookup (nc_secrets c) k) in
                 Ok (k, Some (r + challenge * s))) [0; 1; 2; 3; 4].

Definition of_nrcommit_pub (c : nrcommit) : val := VL [VZ (nc_cu c); VZ (nc_cr c); VZ (nc_nu c)].

(* ---------------------------------------------------------------------------------- *)
(* C11: refreshing a prepared commitment after a witness update gives exactly what a fresh
   commitment with the same randomness would give for the updated witness (C_u modulo N) *)

Lemma go_exp_mod_base b e n : 0 < n -> go_exp (b mod n) e n = go_exp b e n.
Proof.
  intros Hn. unfold go_exp. destruct (e <? 0).
  - unfold go_modinverse. now rewrite Z.mod_mod by lia.
  - now rewrite !powx_powm, powm_mod by lia.
Qed.

Lemma qr_cr_indep pk cu cr nu cu' nu' rnd :
  qr_from_secrets_gen true (pk_N pk) (nc_bases pk cu cr nu) rnd ps_cr =
  qr_from_secrets_gen true (pk_N pk) (nc_bases pk cu' cr nu') rnd ps_cr.
Proof.
  unfold qr_from_secrets_gen, ps_cr, nc_bases, nr_bases. cbn.
  destruct (rnd Sepsilon); cbn; [|reflexivity]. destruct (pk_G pk); cbn; [|reflexivity].
  destruct (rnd Szeta); cbn; [|reflexivity]. destruct (pk_H pk); cbn; reflexivity.
Qed.

Lemma qr_one_indep pk cu cr nu cu' nu' rnd :
  qr_from_secrets_gen true (pk_N pk) (nc_bases pk cu cr nu) rnd ps_one =
  qr_from_secrets_gen true (pk_N pk) (nc_bases pk cu' cr nu') rnd ps_one.
Proof.
  unfold qr_from_secrets_gen, ps_one, nc_bases, nr_bases. cbn.
  destruct (rnd Salpha); cbn; [|reflexivity].
  destruct (rnd Sbeta); cbn; [|reflexivity]. destruct (pk_G pk); cbn; [|reflexivity].
  destruct (rnd Sdelta); cbn; [|reflexivity]. destruct (pk_H pk); cbn; reflexivity.
Qed.

Lemma qr_nu_mod pk cu cr nu nu' rnd : 0 < pk_N pk ->
  qr_from_secrets_gen true (pk_N pk) (nc_bases pk cu cr nu) rnd ps_nu =
  qr_from_secrets_gen true (pk_N pk) (nc_bases pk (cu mod pk_N pk) cr nu') rnd ps_nu.
Proof.
  intros Hn. unfold qr_from_secrets_gen, ps_nu, nc_bases, nr_bases. cbn.
  destruct (rnd Salpha); cbn; [|reflexivity]. rewrite go_exp_mod_base by exact Hn.
  destruct (rnd Sbeta); cbn; [|reflexivity]. destruct (pk_H pk); cbn; reflexivity.
Qed.

Theorem refresh_equals_fresh_lem pk u e nu u' nu' r2 r3 ra rb rd re rz l c l' c' l'' c'' :
  0 < pk_N pk ->
  nr_commit pk u e nu r2 r3 ra rb rd re rz = Ok (l, c) ->
  nr_refresh pk c l u' nu' = Ok (l', c') ->
  nr_commit pk u' e nu' r2 r3 ra rb rd re rz = Ok (l'', c'') ->
  exists a0 cu a3 a4 a5, l' = [a0; cu; nu'; a3; a4; a5] /\ l'' = [a0; cu mod pk_N pk; nu'; a3; a4; a5].
Proof.
  intros Hn H1 H2 H3. unfold nr_commit in H1, H3. unfold nr_refresh in H2. cbv zeta in H1, H2, H3.
  destruct (pk_G pk) as [g|] eqn:Eg; cbn [deref obind] in *; [|discriminate].
  destruct (pk_H pk) as [h|] eqn:Eh; cbn [deref obind] in *; [|discriminate].
  (* rewrite the fresh commit's struct commitments into the shapes of the first commit / refresh *)
  rewrite (qr_cr_indep pk _ _ nu' ((u * powx (pk_N pk) h r2) mod pk_N pk) nu) in H3.
  rewrite (qr_one_indep pk _ _ nu' ((u * powx (pk_N pk) h r2) mod pk_N pk) nu) in H3.
  revert H1.
  match goal with |- context [obind (qr_from_secrets_gen true ?n ?B ?R ps_cr) _] =>
    destruct (qr_from_secrets_gen true n B R ps_cr) as [c1| |] eqn:E1; cbn [obind]; try discriminate end.
  match goal with |- context [obind (qr_from_secrets_gen true ?n ?B ?R ps_nu) _] =>
    destruct (qr_from_secrets_gen true n B R ps_nu) as [c2| |] eqn:E2; cbn [obind]; try discriminate end.
  match goal with |- context [obind (qr_from_secrets_gen true ?n ?B ?R ps_one) _] =>
    destruct (qr_from_secrets_gen true n B R ps_one) as [c3| |] eqn:E3; cbn [obind]; try discriminate end.
  intros H1. injection H1 as Hl Hc. subst l c.
  cbn [nc_secret nc_secrets lookup sname_key Z.eqb deref obind nc_cr nc_rand] in H2.
  match type of H2 with context [deref ?t] => change t with (Some r2) in H2 end. cbn [deref obind] in H2.
  rewrite (qr_nu_mod pk _ _ _ nu' _ Hn) in H2.
  replace ((powx (pk_N pk) h r2 * u') mod pk_N pk) with ((u' * powx (pk_N pk) h r2) mod pk_N pk) in H2
    by (now rewrite Z.mul_comm).
  (* the randomizer look-up only reads nc_rand, which refresh keeps *)
  change (nc_randomizer {| nc_cu := powx (pk_N pk) h r2 * u'; nc_cr := (powx (pk_N pk) g r2 * powx (pk_N pk) h r3) mod pk_N pk;
                           nc_nu := nu'; nc_secrets := [(0, e); (1, e * r2); (2, e * r3); (3, r2); (4, r3)];
                           nc_rand := [(0, ra); (1, rb); (2, rd); (3, re); (4, rz)] |})
    with (nc_randomizer {| nc_cu := (u' * powx (pk_N pk) h r2) mod pk_N pk; nc_cr := (powx (pk_N pk) g r2 * powx (pk_N pk) h r3) mod pk_N pk;
                           nc_nu := nu'; nc_secrets := [(0, e); (1, e * r2); (2, e * r3); (3, r2); (4, r3)];
                           nc_rand := [(0, ra); (1, rb); (2, rd); (3, re); (4, rz)] |}) in H2.
  change (nc_randomizer {| nc_cu := (u * powx (pk_N pk) h r2) mod pk_N pk; nc_cr := (powx (pk_N pk) g r2 * powx (pk_N pk) h r3) mod pk_N pk;
                           nc_nu := nu; nc_secrets := [(0, e); (1, e * r2); (2, e * r3); (3, r2); (4, r3)];
                           nc_rand := [(0, ra); (1, rb); (2, rd); (3, re); (4, rz)] |})
    with (nc_randomizer {| nc_cu := (u' * powx (pk_N pk) h r2) mod pk_N pk; nc_cr := (powx (pk_N pk) g r2 * powx (pk_N pk) h r3) mod pk_N pk;
                           nc_nu := nu'; nc_secrets := [(0, e); (1, e * r2); (2, e * r3); (3, r2); (4, r3)];
                           nc_rand := [(0, ra); (1, rb); (2, rd); (3, re); (4, rz)] |}) in E1, E3.
  rewrite E1, E3 in H3. cbn [obind] in H3.
  revert H2 H3.
  match goal with |- context [obind (qr_from_secrets_gen true ?n ?B ?R ps_nu) _] =>
    destruct (qr_from_secrets_gen true n B R ps_nu) as [l0| |] eqn:E4; cbn [obind]; try discriminate end.
  intros H2 H3. injection H2 as Hl' Hc'. injection H3 as Hl'' Hc''. subst l' l''.
  exists ((powx (pk_N pk) g r2 * powx (pk_N pk) h r3) mod pk_N pk), (powx (pk_N pk) h r2 * u'), c1, l0, c3.
  split; [reflexivity|]. now rewrite (Z.mul_comm u').
Qed.

Theorem invalid_witness_no_commit_lem :
  forall pk u e nu r2 r3 ra rb rd re rz,
  powx (pk_N pk) u e <> nu -> new_proof_commit pk u e nu r2 r3 ra rb rd re rz = Err.
Proof.
  intros pk u e nu r2 r3 ra rb rd re rz H. unfold new_proof_commit.
  destruct (Z.eqb_spec (powx (pk_N pk) u e) nu); [contradiction|reflexivity].
Qed.
