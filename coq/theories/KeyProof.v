(* keyproof/*.go, zkproof/representationproof.go, zkproof/group.go, zkproof/lookup.go:
   the verifier side of the key-correctness proof (structure checks, reconstruction of the
   commitments from the proof data, Fiat-Shamir check, quasi-safe-prime-product checks) and the
   prover side of its building blocks. *)
From Coq Require Import ZArith List Bool String Ascii Lia.
From Coq Require DecimalString.
From Gabi Require Import ModArith GoSem HashTool.
Import ListNotations.
Open Scope string_scope.
Open Scope list_scope.
Open Scope Z_scope.

(* ---------- names ----------
   Names of bases and secrets are byte strings; they are kept as the base-256 number of their bytes
   (no zero bytes occur), which makes comparison cheap.  nm converts a literal. *)

Definition name := Z.

Fixpoint key_of (s : string) (acc : Z) : Z :=
  match s with
  | EmptyString => acc
  | String c r => key_of r (acc * 256 + Z.of_nat (nat_of_ascii c))
  end.
Definition nm (s : string) : name := key_of s 0.

Definition nbytes (n : name) : Z := (bitlen n + 7) / 8.

(* strings.Join(l, "_") *)
Fixpoint join (l : list name) : name :=
  match l with
  | [] => 0
  | [a] => a
  | a :: r => let b := join r in (a * 256 + 95) * 256 ^ nbytes b + b
  end.

(* fmt.Sprintf("%v", i) for an unsigned integer *)
Definition istr (n : nat) : name := nm (DecimalString.NilZero.string_of_uint (Nat.to_uint n)).

(* ---------- security parameters (securityparams.go) ---------- *)
Definition aspp_iters : nat := 250.
Definition dpp_iters : nat := 8.
Definition ppp_iters : nat := 80.
Definition sf_iters : nat := 8.
Definition minimum_factor : Z := 1024.
Definition rp_iters : nat := 80.
Definition rp_epsilon : Z := 256.

(* ---------- group (zkproof/group.go) ---------- *)

Record group := mkG { gP : Z; gOrd : Z; gG : Z; gH : Z }.

Definition build_group (P : Z) : group :=
  mkG P (Z.shiftr P 1) (powx P 1094861636 1162233672) (powx P 1229605708 1296977744).

Definition env := list (name * Z).

Fixpoint lookup_s (e : env) (n : name) : option Z :=
  match e with
  | [] => None
  | (k, v) :: r => if Z.eqb k n then Some v else lookup_s r n
  end.

(* group.go:52 Group.Exp : table-backed exponentiation of g or h; scalars outside [0, order) panic *)
Definition group_exp (g : group) (b e : Z) : outcome Z :=
  let e' := if e <? 0 then e + gOrd g else e in
  if (gOrd g <=? e') || (e' <? 0) then Panic else Ok (powx (gP g) b e').

(* BaseMerge.Exp over pedersen proofs / commits and the group; ret is left unchanged when no part
   knows the name or when a negative power of a non-invertible value is asked for *)
Definition base_exp (g : group) (bs : env) (name : name) (e prev : Z) : outcome Z :=
  match lookup_s bs name with
  | Some b => Ok (match go_exp b e (gP g) with Some v => v | None => prev end)
  | None =>
    if Z.eqb name (nm "g") then group_exp g (gG g) e
    else if Z.eqb name (nm "h") then group_exp g (gH g) e
    else Ok prev
  end.

(* ---------- representation proofs (zkproof/representationproof.go) ---------- *)

Record rep := mkRep { r_lhs : list (name * Z); r_rhs : list (name * name * Z) }.

Fixpoint lhs_prod (g : group) (bs : env) (l : list (name * Z)) (acc prev : Z) : outcome Z :=
  match l with
  | [] => Ok acc
  | (n, pw) :: r =>
    let! b := base_exp g bs n pw prev in
    lhs_prod g bs r ((acc * b) mod gP g) b
  end.

Fixpoint rhs_prod (g : group) (bs ps : env) (l : list (name * name * Z)) (acc prev : Z) : outcome Z :=
  match l with
  | [] => Ok acc
  | (b, s, pw) :: r =>
    match lookup_s ps s with
    | None => Panic
    | Some res =>
      let! c := base_exp g bs b ((pw * res) mod gOrd g) prev in
      rhs_prod g bs ps r ((acc * c) mod gP g) c
    end
  end.

(* representationproof.go:47 CommitmentsFromProof *)
Definition rep_from_proof (g : group) (bs ps : env) (c : Z) (s : rep) : outcome Z :=
  let! lhs := lhs_prod g bs (r_lhs s) 1 0 in
  match go_exp lhs c (gP g) with
  | None => Panic
  | Some cm => rhs_prod g bs ps (r_rhs s) cm 0
  end.

(* representationproof.go:28 CommitmentsFromSecrets (ps holds the randomizers) *)
Definition rep_from_secrets (g : group) (bs rs : env) (s : rep) : outcome Z :=
  rhs_prod g bs rs (r_rhs s) 1 0.

(* representationproof.go:70 IsTrue (ss holds the secrets) *)
Definition rep_is_true (g : group) (bs ss : env) (s : rep) : outcome bool :=
  let! lhs := lhs_prod g bs (r_lhs s) 1 0 in
  let! rhs := rhs_prod g bs ss (r_rhs s) 1 0 in
  Ok (lhs =? rhs).

(* secret.go:30 buildProof *)
Definition secret_result (g : group) (secret randomizer c : Z) : Z := (randomizer - secret * c) mod gOrd g.

(* ---------- pedersen (pedersen.go) ---------- *)

Record ped := mkPed { pd_commit : option Z; pd_s : option Z; pd_h : option Z }.

Definition hider (n : name) : name := join [n; (nm "hider")].

Definition ped_rep (name : name) : rep :=
  mkRep [(name, 1)] [((nm "g"), name, 1); ((nm "h"), hider name, 1)].

Definition ped_structure_ok (p : ped) : bool :=
  match pd_commit p, pd_s p, pd_h p with Some _, Some _, Some _ => true | _, _, _ => false end.

Definition ped_bases (name : name) (p : ped) : env :=
  match pd_commit p with Some c => [(name, c)] | None => [] end.
Definition ped_results (name : name) (p : ped) : env :=
  (match pd_s p with Some v => [(name, v)] | None => [] end) ++
  (match pd_h p with Some v => [(hider name, v)] | None => [] end).

(* pedersen.go:130 commitmentsFromProof *)
Definition ped_commitments (g : group) (name : name) (c : Z) (p : ped) : outcome (list Z) :=
  match pd_commit p with
  | None => Panic
  | Some cm =>
    let! r := rep_from_proof g (ped_bases name p) (ped_results name p) c (ped_rep name) in
    Ok [cm; r]
  end.

(* ---------- range proofs (keyproof/rangeproof.go) ---------- *)

Record rstruct := mkRs { rs_rep : rep; rs_secret : name; rs_l1 : Z; rs_l2 : Z }.

(* RangeProof.Results : a map from secret names to lists; None is the nil map *)
Definition rangep := option (list (name * list (option Z))).

Fixpoint lookup_l {A} (e : list (name * A)) (n : name) : option A :=
  match e with
  | [] => None
  | (k, v) :: r => if Z.eqb k n then Some v else lookup_l r n
  end.

Definition all_some {A} (l : list (option A)) : bool := forallb (fun o => match o with Some _ => true | None => false end) l.

(* rangeproof.go:133 verifyProofStructure *)
Definition range_structure_ok (s : rstruct) (p : rangep) : bool :=
  match p with
  | None => false
  | Some m =>
    forallb (fun bsp : name * name * Z =>
               match lookup_l m (snd (fst bsp)) with
               | None => false
               | Some rl => (Nat.eqb (List.length rl) rp_iters) && all_some rl
               end) (r_rhs (rs_rep s)) &&
    match lookup_l m (rs_secret s) with
    | None => true
    | Some rl => forallb (fun o => match o with Some v => v <? 2 ^ (rs_l2 s + rp_epsilon + 2) | None => true end) rl
    end
  end.

(* rangeproof.go:176 commitmentsFromProof *)
Fixpoint range_results (s : rstruct) (m : list (name * list (option Z))) (i : nat) (bit : bool) : outcome env :=
  match m with
  | [] => Ok []
  | (name, rl) :: r =>
    match nth_error rl i with
    | Some (Some v) =>
      let res := if Z.eqb name (rs_secret s)
                 then (v - 2 ^ (rs_l2 s + rp_epsilon + 1)) - (if bit then 2 ^ rs_l1 s else 0)
                 else v in
      let! rest := range_results s r i bit in
      Ok ((name, res) :: rest)
    | _ => Panic
    end
  end.

Fixpoint range_commitments_from (g : group) (bs : env) (c : Z) (s : rstruct) (m : list (name * list (option Z)))
         (k : nat) (i : nat) : outcome (list Z) :=
  match k with
  | O => Ok []
  | S k' =>
    let bit := Z.testbit c (Z.of_nat i) in
    let! ps := range_results s m i bit in
    let! cm := rep_from_proof g bs ps (if bit then 1 else 0) (rs_rep s) in
    let! rest := range_commitments_from g bs c s m k' (S i) in
    Ok (cm :: rest)
  end.

Definition range_commitments (g : group) (bs : env) (c : Z) (s : rstruct) (p : rangep) : outcome (list Z) :=
  match p with
  | None => range_commitments_from g bs c s [] rp_iters 0   (* ranging over a nil map yields no results *)
  | Some m => range_commitments_from g bs c s m rp_iters 0
  end.

(* rangeproof.go:77 buildProof, one round: the response for the range secret and for another secret *)
Definition range_response_secret (s : rstruct) (bit : bool) (randomizer secret : Z) : Z :=
  (if bit then randomizer + 2 ^ rs_l1 s - secret else randomizer) + 2 ^ (rs_l2 s + rp_epsilon + 1).
Definition range_response_other (g : group) (bit : bool) (randomizer secret : Z) : Z :=
  if bit then (randomizer - secret) mod gOrd g else randomizer.

Definition ped_range (name : name) (l1 l2 : Z) : rstruct := mkRs (ped_rep name) name l1 l2.

(* ---------- multiplication proof (multiplicationproof.go) ---------- *)

Record mstruct := mkMs { ms_name : name; ms_rep : rep; ms_l : Z }.
Record mulp := mkMulp { mp_mod : ped; mp_hider : option Z; mp_range : rangep }.

Definition mul_structure (m1 m2 md result : name) (l : Z) : mstruct :=
  let my := join [m1; m2; md; result; (nm "mul")] in
  mkMs my (mkRep [(result, 1)] [(m2, m1, 1); (md, join [my; (nm "mod")], -1); ((nm "h"), join [my; (nm "hider")], 1)]) l.

Definition mul_structure_ok (s : mstruct) (p : mulp) : bool :=
  range_structure_ok (ped_range (join [ms_name s; (nm "mod")]) 0 (ms_l s)) (mp_range p) &&
  ped_structure_ok (mp_mod p) &&
  match mp_hider p with Some _ => true | None => false end.

Definition opt_env (n : name) (o : option Z) : env := match o with Some v => [(n, v)] | None => [] end.

(* multiplicationproof.go:122 commitmentsFromProof *)
Definition mul_commitments (g : group) (bs ps : env) (c : Z) (s : mstruct) (p : mulp) : outcome (list Z) :=
  let mn := join [ms_name s; (nm "mod")] in
  let proofs := opt_env (join [ms_name s; (nm "hider")]) (mp_hider p) ++ ped_results mn (mp_mod p) ++ ps in
  let inner := ped_bases mn (mp_mod p) ++ bs in
  let! l1 := ped_commitments g mn c (mp_mod p) in
  let! r := rep_from_proof g inner proofs c (ms_rep s) in
  let! l2 := range_commitments g inner c (ped_range mn 0 (ms_l s)) (mp_range p) in
  Ok (l1 ++ [r] ++ l2).

(* ---------- exponentiation steps (expstepa.go, expstepb.go, expstep.go) ---------- *)

Record stepa := mkSa { sa_bit : option Z; sa_eq : option Z }.
Record stepb := mkSb { sb_mul : ped; sb_bit : option Z; sb_mp : mulp }.
Record stepp := mkSt { st_ac : option Z; st_a : stepa; st_bc : option Z; st_b : stepb }.

Record sstruct := mkSs { ss_bit : name; ss_pre : name; ss_post : name; ss_mul : name; ss_mod : name; ss_l : Z }.

Definition stepa_name (s : sstruct) : name := join [ss_bit s; ss_pre s; ss_post s; (nm "expa")].
Definition stepa_bitrep (s : sstruct) : rep := mkRep [(ss_bit s, 1)] [((nm "h"), hider (ss_bit s), 1)].
Definition stepa_eqrep (s : sstruct) : rep :=
  mkRep [(ss_pre s, 1); (ss_post s, -1)] [((nm "h"), join [stepa_name s; (nm "eqhider")], 1)].

Definition stepa_structure_ok (p : stepa) : bool :=
  match sa_bit p, sa_eq p with Some _, Some _ => true | _, _ => false end.

Definition stepa_commitments (g : group) (bs : env) (c : Z) (s : sstruct) (p : stepa) : outcome (list Z) :=
  let proofs := opt_env (hider (ss_bit s)) (sa_bit p) ++ opt_env (join [stepa_name s; (nm "eqhider")]) (sa_eq p) in
  let! a := rep_from_proof g bs proofs c (stepa_bitrep s) in
  let! b := rep_from_proof g bs proofs c (stepa_eqrep s) in
  Ok [a; b].

Definition stepb_bitrep (s : sstruct) : rep := mkRep [(ss_bit s, 1); ((nm "g"), -1)] [((nm "h"), hider (ss_bit s), 1)].
Definition stepb_mul (s : sstruct) : mstruct := mul_structure (ss_mul s) (ss_pre s) (ss_mod s) (ss_post s) (ss_l s).

Definition stepb_structure_ok (s : sstruct) (p : stepb) : bool :=
  mul_structure_ok (stepb_mul s) (sb_mp p) && ped_structure_ok (sb_mul p) &&
  match sb_bit p with Some _ => true | None => false end.

Definition stepb_commitments (g : group) (bs : env) (c : Z) (s : sstruct) (p : stepb) : outcome (list Z) :=
  let proofs := opt_env (hider (ss_bit s)) (sb_bit p) ++ ped_results (ss_mul s) (sb_mul p) in
  let! l1 := ped_commitments g (ss_mul s) c (sb_mul p) in
  let! r := rep_from_proof g bs proofs c (stepb_bitrep s) in
  let! l2 := mul_commitments g bs proofs c (stepb_mul s) (sb_mp p) in
  Ok (l1 ++ [r] ++ l2).

(* expstep.go:104 verifyProofStructure: the two sub-challenges must XOR to the challenge *)
Definition step_structure_ok (c : Z) (s : sstruct) (p : stepp) : bool :=
  match st_ac p, st_bc p with
  | Some a, Some b => (c =? Z.lxor a b) && stepa_structure_ok (st_a p) && stepb_structure_ok s (st_b p)
  | _, _ => false
  end.

Definition step_commitments (g : group) (bs : env) (s : sstruct) (p : stepp) : outcome (list Z) :=
  match st_ac p, st_bc p with
  | Some a, Some b =>
    let! l1 := stepa_commitments g bs a s (st_a p) in
    let! l2 := stepb_commitments g bs b s (st_b p) in
    Ok (l1 ++ l2)
  | _, _ => Panic
  end.

(* ---------- exponentiation proof (exp.go) ---------- *)

Record estruct := mkEs { es_base : name; es_exp : name; es_mod : name; es_res : name; es_l : nat }.

Record expp := mkExpp {
  ep_bits : list ped; ep_biteq : option Z;
  ep_bases : list ped; ep_baserange : list rangep; ep_baserel : list mulp;
  ep_start : ped;
  ep_inter : list ped; ep_interrange : list rangep;
  ep_steps : list stepp }.

Definition exp_name (s : estruct) : name := join [es_base s; es_exp s; es_mod s; es_res s; (nm "exp")].
Definition exp_bit (s : estruct) (i : nat) : name := join [exp_name s; (nm "bit"); istr i].
Definition exp_basen (s : estruct) (i : nat) : name := join [exp_name s; (nm "base"); istr i].
Definition exp_inter (s : estruct) (i : nat) : name := join [exp_name s; (nm "inter"); istr i].
Definition exp_start (s : estruct) : name := join [exp_name s; (nm "start")].
Definition exp_l (s : estruct) : Z := Z.of_nat (es_l s).

Definition exp_biteq (s : estruct) : rep :=
  mkRep ((es_exp s, -1) :: map (fun i => (exp_bit s i, 2 ^ Z.of_nat i)) (seq 0 (es_l s)))
        [((nm "h"), join [exp_name s; (nm "biteqhider")], 1)].

Definition exp_baserel (s : estruct) (i : nat) : mstruct :=
  match i with
  | O => mul_structure (exp_start s) (es_base s) (es_mod s) (exp_basen s 0) (exp_l s)
  | S j => mul_structure (exp_basen s j) (exp_basen s j) (es_mod s) (exp_basen s i) (exp_l s)
  end.

Definition exp_startrep (s : estruct) : rep :=
  mkRep [(exp_start s, 1); ((nm "g"), -1)] [((nm "h"), join [exp_name s; (nm "start"); (nm "hider")], 1)].

Definition exp_step (s : estruct) (i : nat) : sstruct :=
  let pre := match i with O => exp_start s | S j => exp_inter s j end in
  let post := if Nat.eqb (S i) (es_l s) then es_res s else exp_inter s i in
  mkSs (exp_bit s i) pre post (exp_basen s i) (es_mod s) (exp_l s).

Fixpoint forall2i {A} (f : nat -> A -> bool) (i : nat) (l : list A) : bool :=
  match l with [] => true | x :: r => f i x && forall2i f (S i) r end.

(* exp.go:483 verifyProofStructure *)
Definition exp_structure_ok (c : Z) (s : estruct) (p : expp) : bool :=
  let n := es_l s in
  match ep_biteq p with Some _ => true | None => false end &&
  Nat.eqb (List.length (ep_bits p)) n && forallb ped_structure_ok (ep_bits p) &&
  Nat.eqb (List.length (ep_bases p)) n && Nat.eqb (List.length (ep_baserange p)) n && Nat.eqb (List.length (ep_baserel p)) n &&
  forallb ped_structure_ok (ep_bases p) &&
  forall2i (fun i r => range_structure_ok (ped_range (exp_basen s i) 0 (exp_l s)) r) 0 (ep_baserange p) &&
  forall2i (fun i r => mul_structure_ok (exp_baserel s i) r) 0 (ep_baserel p) &&
  ped_structure_ok (ep_start p) &&
  Nat.eqb (List.length (ep_inter p)) (n - 1) && Nat.eqb (List.length (ep_interrange p)) (n - 1) &&
  forallb ped_structure_ok (ep_inter p) &&
  forall2i (fun i r => range_structure_ok (ped_range (exp_inter s i) 0 (exp_l s)) r) 0 (ep_interrange p) &&
  Nat.eqb (List.length (ep_steps p)) n &&
  forall2i (fun i r => step_structure_ok c (exp_step s i) r) 0 (ep_steps p).

Fixpoint concat_outcomes {A} (l : list (outcome (list A))) : outcome (list A) :=
  match l with
  | [] => Ok []
  | x :: r => let! a := x in let! b := concat_outcomes r in Ok (a ++ b)
  end.

Fixpoint mapi {A B} (f : nat -> A -> B) (i : nat) (l : list A) : list B :=
  match l with [] => [] | x :: r => f i x :: mapi f (S i) r end.

Definition peds_bases (nm : nat -> name) (l : list ped) : env := List.concat (mapi (fun i p => ped_bases (nm i) p) 0 l).
Definition peds_results (nm : nat -> name) (l : list ped) : env := List.concat (mapi (fun i p => ped_results (nm i) p) 0 l).

(* exp.go:545 commitmentsFromProof (the parallel workers fill disjoint slots in this order) *)
Definition exp_commitments (g : group) (bs ps : env) (c : Z) (s : estruct) (p : expp) : outcome (list Z) :=
  let ib := peds_bases (exp_bit s) (ep_bits p) ++ peds_bases (exp_basen s) (ep_bases p) ++ ped_bases (exp_start s) (ep_start p)
            ++ peds_bases (exp_inter s) (ep_inter p) ++ bs in
  let ip := peds_results (exp_bit s) (ep_bits p) ++ peds_results (exp_basen s) (ep_bases p) ++ ped_results (exp_start s) (ep_start p)
            ++ peds_results (exp_inter s) (ep_inter p) ++ ps ++ opt_env (join [exp_name s; (nm "biteqhider")]) (ep_biteq p) in
  let! l1 := concat_outcomes (mapi (fun i q => ped_commitments g (exp_bit s i) c q) 0 (ep_bits p)) in
  let! l2 := concat_outcomes (mapi (fun i q => ped_commitments g (exp_basen s i) c q) 0 (ep_bases p)) in
  let! l3 := ped_commitments g (exp_start s) c (ep_start p) in
  let! l4 := concat_outcomes (mapi (fun i q => ped_commitments g (exp_inter s i) c q) 0 (firstn (es_l s - 1) (ep_inter p))) in
  let! r5 := rep_from_proof g ib ip c (exp_biteq s) in
  let! l6 := concat_outcomes (mapi (fun i q => range_commitments g ib c (ped_range (exp_basen s i) 0 (exp_l s)) q) 0 (ep_baserange p)) in
  let! l7 := concat_outcomes (mapi (fun i q => mul_commitments g ib ip c (exp_baserel s i) q) 0 (ep_baserel p)) in
  let! r8 := rep_from_proof g ib ip c (exp_startrep s) in
  let! l9 := concat_outcomes (mapi (fun i q => range_commitments g ib c (ped_range (exp_inter s i) 0 (exp_l s)) q) 0 (ep_interrange p)) in
  let! l10 := concat_outcomes (mapi (fun i q => step_commitments g ib (exp_step s i) q) 0 (ep_steps p)) in
  Ok (l1 ++ l2 ++ l3 ++ l4 ++ [r5] ++ l6 ++ l7 ++ [r8] ++ l9 ++ l10).

(* ---------- primality proof (primeproof.go) ---------- *)

Record primep := mkPrimep {
  pp_halfp : ped; pp_prea : ped; pp_a : ped; pp_aneg : ped; pp_ares : ped; pp_anegres : ped;
  pp_preamod : option Z; pp_preahider : option Z;
  pp_aplus1 : option Z; pp_amin1 : option Z; pp_aplus1c : option Z; pp_amin1c : option Z;
  pp_prearange : rangep; pp_arange : rangep; pp_anegrange : rangep; pp_preamodrange : rangep;
  pp_aexp : expp; pp_anegexp : expp }.

Record pstruct := mkPs { ps_prime : name; ps_l : nat }.

Definition prime_name (s : pstruct) : name := join [ps_prime s; (nm "primeproof")].
Definition pn (s : pstruct) (x : name) : name := join [prime_name s; x].
Definition prime_l (s : pstruct) : Z := Z.of_nat (ps_l s).

Definition prime_halfprep (s : pstruct) : rep :=
  mkRep [(ps_prime s, 1); (pn s (nm "halfp"), -2); ((nm "g"), -1)]
        [((nm "h"), hider (ps_prime s), 1); ((nm "h"), join [prime_name s; (nm "halfp"); (nm "hider")], -2)].
Definition prime_aplus1rep (s : pstruct) : rep :=
  mkRep [(pn s (nm "ares"), 1); ((nm "g"), -1)] [((nm "h"), pn s (nm "aresplus1hider"), 1)].
Definition prime_amin1rep (s : pstruct) : rep :=
  mkRep [(pn s (nm "ares"), 1); ((nm "g"), 1)] [((nm "h"), pn s (nm "aresmin1hider"), 1)].
Definition prime_anegresrep (s : pstruct) : rep :=
  mkRep [(pn s (nm "anegres"), 1); ((nm "g"), 1)] [((nm "h"), join [prime_name s; (nm "anegres"); (nm "hider")], 1)].
Definition prime_aexp (s : pstruct) : estruct := mkEs (pn s (nm "a")) (pn s (nm "halfp")) (ps_prime s) (pn s (nm "ares")) (ps_l s).
Definition prime_anegexp (s : pstruct) : estruct := mkEs (pn s (nm "aneg")) (pn s (nm "halfp")) (ps_prime s) (pn s (nm "anegres")) (ps_l s).

Definition prime_agen (s : pstruct) (power : Z) : rep :=
  mkRep [(pn s (nm "prea"), 1); ((nm "g"), power); (pn s (nm "a"), -1)]
        [(ps_prime s, pn s (nm "preamod"), 1); ((nm "h"), pn s (nm "preahider"), 1)].

Definition is_some {A} (o : option A) : bool := match o with Some _ => true | None => false end.

(* primeproof.go:415 verifyProofStructure *)
Definition prime_structure_ok (c : Z) (s : pstruct) (p : primep) : bool :=
  ped_structure_ok (pp_halfp p) && ped_structure_ok (pp_prea p) && ped_structure_ok (pp_a p) &&
  ped_structure_ok (pp_aneg p) && ped_structure_ok (pp_ares p) && ped_structure_ok (pp_anegres p) &&
  (let aadd := get_hash_number (pd_commit (pp_prea p)) None 0 (prime_l s) in
   range_structure_ok (ped_range (pn s (nm "prea")) 0 (prime_l s)) (pp_prearange p) &&
   range_structure_ok (ped_range (pn s (nm "a")) 0 (prime_l s)) (pp_arange p) &&
   range_structure_ok (ped_range (pn s (nm "aneg")) 0 (prime_l s)) (pp_anegrange p) &&
   range_structure_ok (mkRs (prime_agen s aadd) (pn s (nm "preamod")) 0 (prime_l s)) (pp_preamodrange p)) &&
  is_some (pp_preamod p) && is_some (pp_preahider p) && is_some (pp_aplus1 p) && is_some (pp_amin1 p) &&
  match pp_aplus1c p, pp_amin1c p with
  | Some a, Some b => Z.lxor a b =? c
  | _, _ => false
  end &&
  exp_structure_ok c (prime_aexp s) (pp_aexp p) && exp_structure_ok c (prime_anegexp s) (pp_anegexp p).

(* primeproof.go:475 commitmentsFromProof *)
Definition prime_commitments (g : group) (bs ps : env) (c : Z) (s : pstruct) (p : primep) : outcome (list Z) :=
  match pp_aplus1c p, pp_amin1c p with
  | Some c1, Some c2 =>
    let aadd := get_hash_number (pd_commit (pp_prea p)) None 0 (prime_l s) in
    let agen := prime_agen s (aadd mod gOrd g) in
    let ib := ped_bases (pn s (nm "prea")) (pp_prea p) ++ ped_bases (pn s (nm "a")) (pp_a p) ++ ped_bases (pn s (nm "aneg")) (pp_aneg p) ++
              ped_bases (pn s (nm "ares")) (pp_ares p) ++ ped_bases (pn s (nm "anegres")) (pp_anegres p) ++ ped_bases (pn s (nm "halfp")) (pp_halfp p) ++ bs in
    let ip := opt_env (pn s (nm "preamod")) (pp_preamod p) ++ opt_env (pn s (nm "preahider")) (pp_preahider p) ++
              opt_env (pn s (nm "aresmin1hider")) (pp_amin1 p) ++ opt_env (pn s (nm "aresplus1hider")) (pp_aplus1 p) ++
              ped_results (pn s (nm "a")) (pp_a p) ++ ped_results (pn s (nm "aneg")) (pp_aneg p) ++ ped_results (pn s (nm "ares")) (pp_ares p) ++
              ped_results (pn s (nm "anegres")) (pp_anegres p) ++ ped_results (pn s (nm "halfp")) (pp_halfp p) ++ ps in
    let! l1 := ped_commitments g (pn s (nm "prea")) c (pp_prea p) in
    let! l2 := ped_commitments g (pn s (nm "a")) c (pp_a p) in
    let! l3 := ped_commitments g (pn s (nm "aneg")) c (pp_aneg p) in
    let! l4 := ped_commitments g (pn s (nm "ares")) c (pp_ares p) in
    let! l5 := ped_commitments g (pn s (nm "anegres")) c (pp_anegres p) in
    let! l6 := ped_commitments g (pn s (nm "halfp")) c (pp_halfp p) in
    let! r7 := rep_from_proof g ib ip c (prime_halfprep s) in
    let! l8 := range_commitments g ib c (ped_range (pn s (nm "prea")) 0 (prime_l s)) (pp_prearange p) in
    let! l9 := range_commitments g ib c (ped_range (pn s (nm "a")) 0 (prime_l s)) (pp_arange p) in
    let! l10 := range_commitments g ib c (ped_range (pn s (nm "aneg")) 0 (prime_l s)) (pp_anegrange p) in
    let! r11 := rep_from_proof g ib ip c agen in
    let! l12 := range_commitments g ib c (mkRs agen (pn s (nm "preamod")) 0 (prime_l s)) (pp_preamodrange p) in
    let! r13 := rep_from_proof g ib ip c (prime_anegresrep s) in
    let! r14 := rep_from_proof g ib ip c1 (prime_aplus1rep s) in
    let! r15 := rep_from_proof g ib ip c2 (prime_amin1rep s) in
    let! l16 := exp_commitments g ib ip c (prime_aexp s) (pp_aexp p) in
    let! l17 := exp_commitments g ib ip c (prime_anegexp s) (pp_anegexp p) in
    Ok (l1 ++ l2 ++ l3 ++ l4 ++ l5 ++ l6 ++ [r7] ++ l8 ++ l9 ++ l10 ++ [r11] ++ l12 ++ [r13; r14; r15] ++ l16 ++ l17)
  | _, _ => Panic
  end.

(* ---------- bases are squares (issquareproof.go) ---------- *)

Record issqp := mkIssq {
  iq_n : ped; iq_squares : list ped; iq_roots : list ped; iq_rootrange : list rangep; iq_rootvalid : list mulp }.

Definition sq_name (i : nat) : name := join [(nm "s"); istr i].
Definition rt_name (i : nat) : name := join [(nm "r"); istr i].
Definition issq_nrep (n : Z) : rep := mkRep [((nm "N"), -1); ((nm "g"), n)] [((nm "h"), (nm "N_hider"), -1)].
Definition issq_sqrep (i : nat) (v : Z) : rep :=
  mkRep [(sq_name i, -1); ((nm "g"), v)] [((nm "h"), join [(nm "s"); istr i; (nm "hider")], -1)].
Definition issq_valid (n : Z) (i : nat) : mstruct := mul_structure (rt_name i) (rt_name i) (nm "N") (sq_name i) (bitlen n).

(* issquareproof.go:208 verifyProofStructure *)
Definition issq_structure_ok (n : Z) (squares : list Z) (p : issqp) : bool :=
  let k := List.length squares in
  ped_structure_ok (iq_n p) &&
  Nat.eqb (List.length (iq_squares p)) k && Nat.eqb (List.length (iq_roots p)) k &&
  Nat.eqb (List.length (iq_rootrange p)) k && Nat.eqb (List.length (iq_rootvalid p)) k &&
  forallb ped_structure_ok (iq_squares p) && forallb ped_structure_ok (iq_roots p) &&
  forall2i (fun i r => range_structure_ok (ped_range (rt_name i) 0 (bitlen n)) r) 0 (iq_rootrange p) &&
  forall2i (fun i r => mul_structure_ok (issq_valid n i) r) 0 (iq_rootvalid p).

(* issquareproof.go:236 commitmentsFromProof; first the pedersen part, which does not involve the public values *)
Definition issq_pre (g : group) (c : Z) (p : issqp) : outcome (list Z) :=
  let! l1 := concat_outcomes (mapi (fun i q => ped_commitments g (sq_name i) c q) 0 (iq_squares p)) in
  let! l2 := concat_outcomes (mapi (fun i q => ped_commitments g (rt_name i) c q) 0 (iq_roots p)) in
  let! l3 := ped_commitments g (nm "N") c (iq_n p) in
  Ok (l1 ++ l2 ++ l3).

Definition issq_commitments (g : group) (c : Z) (n : Z) (squares : list Z) (p : issqp) : outcome (list Z) :=
  let bs := peds_bases sq_name (iq_squares p) ++ peds_bases rt_name (iq_roots p) ++ ped_bases (nm "N") (iq_n p) in
  let ps := peds_results sq_name (iq_squares p) ++ peds_results rt_name (iq_roots p) ++ ped_results (nm "N") (iq_n p) in
  let! pre := issq_pre g c p in
  let! r4 := rep_from_proof g bs ps c (issq_nrep n) in
  let! l5 := concat_outcomes (mapi (fun i v => let! r := rep_from_proof g bs ps c (issq_sqrep i v) in Ok [r]) 0 squares) in
  let! l6 := concat_outcomes (mapi (fun i q => range_commitments g bs c (ped_range (rt_name i) 0 (bitlen n)) q) 0 (iq_rootrange p)) in
  let! l7 := concat_outcomes (mapi (fun i q => mul_commitments g bs ps c (issq_valid n i) q) 0 (iq_rootvalid p)) in
  Ok (pre ++ [n] ++ squares ++ [r4] ++ l5 ++ l6 ++ l7).

(* ---------- quasi-safe prime products (squarefree.go, primepowerproduct.go, disjointprimeproduct.go,
              almostsafeprimeproduct.go, quasisafeprimeproduct.go) ---------- *)

Definition responses_ok (k : nat) (l : option (list (option Z))) : bool :=
  match l with Some rs => Nat.eqb (List.length rs) k && all_some rs | None => false end.

Definition challenge_n (c : Z) (index : Z) (i : nat) (n : Z) : Z :=
  (get_hash_number (Some c) (Some index) (Z.of_nat i) (bitlen n)) mod n.

Fixpoint check_iters (f : nat -> Z -> bool) (i : nat) (rs : list (option Z)) (k : nat) : outcome bool :=
  match k with
  | O => Ok true
  | S k' =>
    match rs with
    | Some r :: rest => if f i r then check_iters f (S i) rest k' else Ok false
    | _ => Panic      (* index out of range / nil response *)
    end
  end.

Definition opt_list_l {A} (o : option (list A)) : list A := match o with Some l => l | None => [] end.

(* squarefree.go:54 squareFreeVerifyProof *)
Definition sf_verify (n c : Z) (rs : option (list (option Z))) : outcome bool :=
  if negb (Nat.eqb (List.length (opt_list_l rs)) sf_iters) then Ok false
  else check_iters (fun i r => powx n r n =? challenge_n c 0 i n) 0 (opt_list_l rs) sf_iters.

(* primepowerproduct.go:70 primePowerProductVerifyProof *)
Definition ppp_verify (n c : Z) (rs : option (list (option Z))) : outcome bool :=
  check_iters (fun i r =>
                 let cur := challenge_n c 1 i n in
                 let res := powx n r 2 in
                 (res =? cur) || (res =? (- cur) mod n) || (res =? (2 * cur) mod n) || (res =? (- (2 * cur)) mod n))
              0 (opt_list_l rs) ppp_iters.

Fixpoint strip2 (fuel : nat) (x : Z) : Z :=
  match fuel with O => x | S f => if Z.even x && negb (x =? 0) then strip2 f (x / 2) else x end.

(* disjointprimeproduct.go:58 disjointPrimeProductVerifyProof (primality of N is an oracle) *)
Definition dpp_verify (n c : Z) (n_prime : bool) (rs : option (list (option Z))) : outcome bool :=
  if n_prime then Ok false
  else
    let oddn := strip2 (Z.to_nat (bitlen n)) (n - 1) in
    check_iters (fun i r => powx n r oddn =? challenge_n c 2 i n) 0 (opt_list_l rs) sf_iters.

Record asppp := mkAspp { as_nonce : option Z; as_commitments : option (list (option Z)); as_responses : option (list (option Z)) }.

Definition aspp_structure_ok (p : asppp) : bool :=
  is_some (as_nonce p) && responses_ok aspp_iters (as_commitments p) && responses_ok aspp_iters (as_responses p).

Definition inv_or (x n prev : Z) : Z := match go_modinverse x n with Some v => v | None => prev end.

(* almostsafeprimeproduct.go:132 almostSafePrimeProductVerifyProof *)
Fixpoint aspp_iter (n c nonce gamma : Z) (i : nat) (cs rs : list (option Z)) (k : nat) : outcome bool :=
  match k with
  | O => Ok true
  | S k' =>
    match cs, rs with
    | Some cm :: cs', Some r :: rs' =>
      let base := (get_hash_number (Some nonce) None (Z.of_nat i) (bitlen n)) mod n in
      let x := get_hash_number (Some c) (Some 3) (Z.of_nat i) (2 * bitlen n) in
      let y := (cm * powx n base x) mod n in
      let yg := powx n y gamma in
      match go_exp (powx n base gamma) r n with
      | None => Panic
      | Some t1a =>
        match go_exp t1a r n with
        | None => Panic
        | Some t1 =>
          match go_modinverse t1 n with
          | None => Panic      (* t2 is nil: t2.Cmp panics *)
          | Some t2 =>
            let t3 := powx n t1 2 in
            match go_modinverse t3 n with
            | None => Panic
            | Some t4 =>
              if (t1 =? yg) || (t2 =? yg) || (t3 =? yg) || (t4 =? yg) then aspp_iter n c nonce gamma (S i) cs' rs' k' else Ok false
            end
          end
        end
      end
    | _, _ => Panic
    end
  end.

Definition aspp_verify (n c : Z) (p : asppp) : outcome bool :=
  if negb (n mod 3 =? 1) then Ok false
  else match as_nonce p with
       | None => Panic
       | Some nonce => aspp_iter n c nonce (2 ^ bitlen n) 0 (opt_list_l (as_commitments p)) (opt_list_l (as_responses p)) aspp_iters
       end.

Record qsppp := mkQspp { q_sf : option (list (option Z)); q_ppp : option (list (option Z)); q_dpp : option (list (option Z)); q_aspp : asppp }.

Definition qspp_structure_ok (p : qsppp) : bool :=
  responses_ok sf_iters (q_sf p) && responses_ok ppp_iters (q_ppp p) && responses_ok dpp_iters (q_dpp p) && aspp_structure_ok (q_aspp p).

Definition no_small_factor (n : Z) : bool :=
  forallb (fun i => Z.gcd n (Z.of_nat i) =? 1) (seq 2 (Z.to_nat minimum_factor - 2)).

Definition and_then (a : outcome bool) (b : outcome bool) : outcome bool :=
  match a with Ok true => b | o => o end.

(* quasisafeprimeproduct.go:52 quasiSafePrimeProductVerifyProof *)
Definition qspp_verify (n c : Z) (n_prime : bool) (p : qsppp) : outcome bool :=
  if negb (n mod 8 =? 5) then Ok false
  else if negb (no_small_factor n) then Ok false
  else and_then (sf_verify n c (q_sf p))
      (and_then (ppp_verify n c (q_ppp p))
      (and_then (dpp_verify n c n_prime (q_dpp p)) (aspp_verify n c (q_aspp p)))).

(* ---------- the key proof (validkeyproof.go) ---------- *)

Record vkp := mkVkp {
  vk_p : ped; vk_q : ped; vk_pprime : ped; vk_qprime : ped; vk_pqnrel : option Z;
  vk_challenge : option Z; vk_groupprime : option Z;
  vk_pprime_prime : primep; vk_qprime_prime : primep; vk_qspp : qsppp; vk_bases : issqp }.

Definition vk_pprel : rep := mkRep [((nm "p"), 1); ((nm "pprime"), -2); ((nm "g"), -1)] [((nm "h"), (nm "p_hider"), 1); ((nm "h"), (nm "pprime_hider"), -2)].
Definition vk_qqrel : rep := mkRep [((nm "q"), 1); ((nm "qprime"), -2); ((nm "g"), -1)] [((nm "h"), (nm "q_hider"), 1); ((nm "h"), (nm "qprime_hider"), -2)].
Definition vk_pqnrep (n : Z) : rep := mkRep [((nm "g"), n)] [((nm "p"), (nm "q"), 1); ((nm "h"), (nm "pqnrel"), -1)].
Definition vk_primelen (n : Z) : nat := Z.to_nat ((bitlen n + 1) / 2).

(* validkeyproof.go:188 VerifyProof, structure part; gp_prime / half_prime: ProbablyPrime(80) of the group
   prime and of its half (oracle values) *)
Definition vk_structure_ok (n : Z) (bases : list Z) (gp_prime half_prime : bool) (p : vkp) : bool :=
  match vk_groupprime p, vk_challenge p with
  | Some gp, Some c =>
    negb (bitlen gp <? bitlen n + 2 * rp_epsilon + 10) && gp_prime && half_prime &&
    is_some (vk_pqnrel p) &&
    ped_structure_ok (vk_p p) && ped_structure_ok (vk_q p) && ped_structure_ok (vk_pprime p) && ped_structure_ok (vk_qprime p) &&
    prime_structure_ok c (mkPs (nm "pprime") (vk_primelen n)) (vk_pprime_prime p) &&
    prime_structure_ok c (mkPs (nm "qprime") (vk_primelen n)) (vk_qprime_prime p) &&
    qspp_structure_ok (vk_qspp p) &&
    issq_structure_ok n bases (vk_bases p)
  | _, _ => false
  end.

(* the part of the hashed list before the bases-are-squares proof *)
Definition vk_front (n : Z) (p : vkp) : outcome (list Z) :=
  match vk_groupprime p, vk_challenge p with
  | Some gp, Some c =>
    let g := build_group gp in
    let bs := ped_bases (nm "p") (vk_p p) ++ ped_bases (nm "q") (vk_q p) ++ ped_bases (nm "pprime") (vk_pprime p) ++ ped_bases (nm "qprime") (vk_qprime p) in
    let ps := ped_results (nm "p") (vk_p p) ++ ped_results (nm "q") (vk_q p) ++ ped_results (nm "pprime") (vk_pprime p) ++ ped_results (nm "qprime") (vk_qprime p)
              ++ opt_env (nm "pqnrel") (vk_pqnrel p) in
    let! l1 := ped_commitments g (nm "pprime") c (vk_pprime p) in
    let! l2 := ped_commitments g (nm "qprime") c (vk_qprime p) in
    let! l3 := ped_commitments g (nm "p") c (vk_p p) in
    let! l4 := ped_commitments g (nm "q") c (vk_q p) in
    let! r5 := rep_from_proof g bs ps c vk_pprel in
    let! r6 := rep_from_proof g bs ps c vk_qqrel in
    let! r7 := rep_from_proof g bs ps c (vk_pqnrep n) in
    let! l8 := prime_commitments g bs ps c (mkPs (nm "pprime") (vk_primelen n)) (vk_pprime_prime p) in
    let! l9 := prime_commitments g bs ps c (mkPs (nm "qprime") (vk_primelen n)) (vk_qprime_prime p) in
    let l10 := map (fun o => match o with Some v => v | None => 0 end) (opt_list_l (as_commitments (q_aspp (vk_qspp p)))) in
    Ok (l1 ++ l2 ++ l3 ++ l4 ++ [gp; n] ++ [r5; r6; r7] ++ l8 ++ l9 ++ l10)
  | _, _ => Panic
  end.

Definition vk_list (n : Z) (bases : list Z) (p : vkp) : outcome (list Z) :=
  match vk_groupprime p, vk_challenge p with
  | Some gp, Some c =>
    let! front := vk_front n p in
    let! l11 := issq_commitments (build_group gp) c n bases (vk_bases p) in
    Ok (front ++ l11)
  | _, _ => Panic
  end.

(* validkeyproof.go (repaired): apart from the group prime, N (positions 8, 9) and the commitments of the QSPP proof,
   every entry of the recomputed list is an element of the group modulo GroupPrime and must not be 0 modulo it: a
   prover-supplied commitment that is 0 makes every relation it occurs in hold vacuously *)
Definition vk_nonzero_ok (gp : Z) (l : list Z) (qspp_len tail_len : nat) : bool :=
  let total := List.length l in
  let qspp_end := (total - tail_len)%nat in
  let qspp_start := (qspp_end - qspp_len)%nat in
  forallb (fun ix => let '(i, x) := ix in
             (i =? 8)%nat || (i =? 9)%nat || ((qspp_start <=? i)%nat && (i <? qspp_end)%nat) || negb (x mod gp =? 0))
          (combine (seq 0 total) l).

Definition vk_nonzero (n : Z) (bases : list Z) (p : vkp) (l : list Z) : outcome bool :=
  match vk_groupprime p, vk_challenge p with
  | Some gp, Some c =>
    let! l11 := issq_commitments (build_group gp) c n bases (vk_bases p) in
    Ok (vk_nonzero_ok gp l (List.length (opt_list_l (as_commitments (q_aspp (vk_qspp p))))) (List.length l11))
  | _, _ => Panic
  end.

Definition vk_verify (n : Z) (bases : list Z) (gp_prime half_prime n_prime : bool) (p : vkp) : outcome bool :=
  if negb (vk_structure_ok n bases gp_prime half_prime p) then Ok false
  else
    let! l := vk_list n bases p in
    match vk_challenge p with
    | None => Panic
    | Some c =>
      if negb (c =? hash_commit false l) then Ok false
      else let! nz := vk_nonzero n bases p l in
           if negb nz then Ok false else qspp_verify n c n_prime (vk_qspp p)
    end.
