(* rangeproof/proof.go : descriptors, statement logic, verifier and prover. *)
From Coq Require Import ZArith List Lia Bool.
From Gabi Require Import Val ModArith GoSem ParamsDef ZkProof Keys.
Import ListNotations.
Open Scope Z_scope.

Record rproof := mkRp {
  rp_Cs : list (option Z); rp_Ds : list (option Z); rp_Vs : list (option Z);
  rp_V5 : option Z; rp_M : option Z;
  rp_Ld : Z; rp_Sign : Z; rp_A : Z; rp_K : option Z
}.

Record rstruct := mkRs { rs_index : Z; rs_sign : Z; rs_a : Z; rs_k : Z; rs_ld : Z; rs_n : Z }.

(* the exponent of R_index applied to the m-response: Go computes -int64(a)*int64(sign) *)
Definition m_power (a sign : Z) : Z := i64 (i64 (- (i64 a)) * i64 sign).

(* proof.go:209 newWithParams *)
Definition max_int64 : Z := 9223372036854775807.
Definition max_uint : Z := 18446744073709551615.

Definition new_with_params (index sign a k n ld : Z) : outcome rstruct :=
  if 4 <? n then Err
  else if max_int64 <? a then Err
  else if negb ((sign =? 1) || (sign =? -1)) then Err
  else Ok (mkRs index sign a k ld n).

Definition zrange (n : Z) : list Z := map Z.of_nat (seq 0 (Z.to_nat n)).

Definition m_correct (s : rstruct) : qrstruct :=
  mkQr [(BR (rs_index s), if rs_sign s =? 1 then - rs_k s else rs_k s)]
       (mkRhs BS SV5 (-1) :: mkRhs (BR (rs_index s)) SM (m_power (rs_a s) (rs_sign s))
        :: map (fun i => mkRhs (BC i) (SD i) 1) (zrange (rs_n s))).

Definition c_rep (s : rstruct) (i : Z) : qrstruct :=
  mkQr [(BC i, 1)] [mkRhs (BR (rs_index s)) (SD i) 1; mkRhs BS (SV i) 1].

(* proof.go:478 ExtractStructure *)
Definition extract_structure (ps : sysparams) (index : Z) (p : rproof) : outcome rstruct :=
  let n := Z.of_nat (length (rp_Cs p)) in
  match rp_K p with
  | None => Err
  | Some k =>
    if (Lm ps <? rp_Ld p) || (n <? 3) || (4 <? n) || (Lm ps + 64 <? bitlen k)
       || ((n =? 3) && negb (rp_A p =? 4))
    then Err
    else new_with_params index (rp_Sign p) (rp_A p) k n (rp_Ld p)
  end.

Definition nth_ptr (l : list (option Z)) (i : Z) : option Z :=
  if (0 <=? i) && (i <? Z.of_nat (length l)) then nth (Z.to_nat i) l None else None.

Definition blen_ok (o : option Z) (bound : Z) : bool :=
  match o with Some x => bitlen x <=? bound | None => false end.

(* proof.go:388 VerifyProofStructure *)
Definition coprime_ok (o : option Z) (n : Z) : bool :=
  match o with Some c => Z.gcd c n =? 1 | None => false end.

Definition verify_proof_structure (pk : pubkey) (s : rstruct) (p : rproof) : bool :=
  let ps := pk_params pk in
  let n := rs_n s in
  (n =? Z.of_nat (length (rp_Cs p))) && (n =? Z.of_nat (length (rp_Ds p))) &&
  (n =? Z.of_nat (length (rp_Vs p))) &&
  blen_ok (rp_V5 p) (Lm ps + rs_ld s + 2 + Lh ps + Lstatzk ps + 1) &&
  blen_ok (rp_M p) (Lm ps + Lh ps + Lstatzk ps + 1) &&
  forallb (fun i =>
    blen_ok (nth_ptr (rp_Cs p) i) (bitlen (pk_N pk)) &&
    blen_ok (nth_ptr (rp_Ds p) i) (rs_ld s + Lh ps + Lstatzk ps + 1) &&
    blen_ok (nth_ptr (rp_Vs p) i) (Lm ps + Lh ps + Lstatzk ps + 1) &&
    (* the commitments must be invertible modulo N (a C_i that is 0 modulo N makes its relations hold vacuously) *)
    coprime_ok (nth_ptr (rp_Cs p) i) (pk_N pk)) (zrange n).

Definition rp_bases (pk : pubkey) (p : rproof) (b : bname) : option Z :=
  match pk_base pk b with
  | Some x => Some x
  | None => match b with BC i => nth_ptr (rp_Cs p) i | _ => None end
  end.

Definition rp_results (p : rproof) (s : sname) : option Z :=
  match s with
  | SM => rp_M p
  | SV5 => rp_V5 p
  | SV i => nth_ptr (rp_Vs p) i
  | SD i => nth_ptr (rp_Ds p) i
  | _ => None
  end.

(* proof.go:416 CommitmentsFromProof *)
Definition commitments_from_proof (pk : pubkey) (s : rstruct) (p : rproof) (challenge : Z)
  : outcome (list Z) :=
  let n := pk_N pk in
  let! c0 := qr_from_proof n (rp_bases pk p) (rp_results p) challenge (m_correct s) in
  let! cs := omap (fun i => qr_from_proof n (rp_bases pk p) (rp_results p) challenge (c_rep s i))
                  (zrange (rs_n s)) in
  Ok (c0 :: cs).

(* ------------------------------------------------------------------------------ *)
(* statement logic *)

(* proof.go threeSquaresBound *)
Definition three_squares_bound (sign bound : Z) : Z :=
  if sign =? -1 then bound * 4 + 2 else bound * 4 - 2.

(* proof.go:430 ProvesStatement *)
Definition proves_statement (p : rproof) (sign factor bound : Z) : bool :=
  if negb ((sign =? 1) || (sign =? -1)) then false
  else
    let three := Z.of_nat (length (rp_Cs p)) =? 3 in
    if three && (max_uint / 4 <? factor) then false else
    let factor' := if three then u64 (factor * 4) else factor in
    let bound' := if three then three_squares_bound sign bound else bound in
    match rp_K p with
    | None => false   (* p.K.Cmp on nil would panic; callers only use extracted proofs *)
    | Some k =>
      (rp_Sign p =? sign) && (rp_A p =? factor') &&
      ((k =? bound') || (match sign with 1 => bound' <? k | _ => k <? bound' end))
    end.

(* proof.go:458 ProvenStatement : (sign, factor, bound) *)
Definition proven_statement (p : rproof) : option (Z * Z * Z) :=
  match rp_K p with
  | None => None
  | Some k =>
    let three := Z.of_nat (length (rp_Cs p)) =? 3 in
    let bound := if three then (if rp_Sign p =? -1 then Z.shiftr k 2 else Z.shiftr (k + 2) 2) else k in
    let factor := if three then Z.shiftr (rp_A p) 2 else rp_A p in
    Some (rp_Sign p, factor, bound)
  end.

(* integer meaning of a statement *)
Definition holds (sign factor bound m : Z) : Prop := 0 <= sign * (factor * m - bound).
Definition holdsb (sign factor bound m : Z) : bool := 0 <=? sign * (factor * m - bound).

(* ------------------------------------------------------------------------------ *)
(* prover side *)

(* proof.go:183 NewProofStructure ; nsq = splitter.SquareCount(), ld = splitter.Ld() *)
Definition new_proof_structure (index sign factor bound nsq ld : Z) : outcome rstruct :=
  if nsq =? 3 then
    if negb (factor =? 1) then Err
    else new_with_params index sign (u64 (factor * 4)) (three_squares_bound sign bound) nsq ld
  else new_with_params index sign factor bound nsq ld.

(* the value to be split: proof.go:276 *)
Definition delta (s : rstruct) (m : Z) : Z :=
  let d := m * i64 (rs_a s) - rs_k s in if rs_sign s =? -1 then - d else d.

Record rcommit := mkRc {
  rc_d : list Z; rc_dr : list Z; rc_v : list Z; rc_vr : list Z;
  rc_v5 : Z; rc_v5r : Z; rc_m : Z; rc_mr : Z; rc_c : list Z
}.

Fixpoint dot (a b : list Z) : Z :=
  match a, b with x :: r, y :: t => x * y + dot r t | _, _ => 0 end.

Definition nthZ (l : list Z) (i : Z) : option Z :=
  if (0 <=? i) && (i <? Z.of_nat (length l)) then Some (nth (Z.to_nat i) l 0) else None.

Definition rc_bases (pk : pubkey) (c : list Z) (b : bname) : option Z :=
  match pk_base pk b with
  | Some x => Some x
  | None => match b with BC i => nthZ c i | _ => None end
  end.

Definition rc_rnd (c : rcommit) (s : sname) : option Z :=
  match s with
  | SM => Some (rc_mr c) | SV5 => Some (rc_v5r c)
  | SV i => nthZ (rc_vr c) i | SD i => nthZ (rc_dr c) i
  | _ => None
  end.

(* proof.go:268 CommitmentsFromSecrets, with the split result [ds] and all randomness as inputs *)
Definition commitments_from_secrets (pk : pubkey) (s : rstruct) (m mr : Z)
           (ds drs vs vrs : list Z) (v5r : Z) : outcome (list Z * rcommit) :=
  if delta s m <? 0 then Err
  else if negb (Z.of_nat (length ds) =? rs_n s) then Err
  else if negb (forallb (fun d => bitlen d <=? rs_ld s) ds) then Err
  else
    let n := pk_N pk in
    let! r := index_R (pk_R pk) (rs_index s) in
    let cs := map (fun dv => (powx n r (fst dv) * powx n (pk_S pk) (snd dv)) mod n) (combine ds vs) in
    let c := mkRc ds drs vs vrs (dot ds vs) v5r m mr cs in
    let! c0 := qr_from_secrets n (rc_bases pk cs) (rc_rnd c) (m_correct s) in
    let! rest := omap (fun i => qr_from_secrets n (rc_bases pk cs) (rc_rnd c) (c_rep s i)) (zrange (rs_n s)) in
    Ok (c0 :: rest, c).

(* proof.go:364 BuildProof *)
Definition build_proof (s : rstruct) (c : rcommit) (challenge : Z) : rproof :=
  mkRp (map Some (rc_c c))
       (map (fun dr => Some (challenge * fst dr + snd dr)) (combine (rc_d c) (rc_dr c)))
       (map (fun vr => Some (challenge * fst vr + snd vr)) (combine (rc_v c) (rc_vr c)))
       (Some (challenge * rc_v5 c + rc_v5r c))
       (Some (challenge * rc_m c + rc_mr c))
       (rs_ld s) (rs_sign s) (rs_a s) (Some (rs_k s)).

(* wire decoding of a range proof: (Cs Ds Vs V5 M Ld Sign A K) *)
Definition as_rproof (v : val) : option rproof :=
  match v with
  | VL [cs; ds; vs; v5; m; ld; sg; a; k] =>
    do cs <- as_LoZ cs; do ds <- as_LoZ ds; do vs <- as_LoZ vs; do v5 <- as_oZ v5; do m <- as_oZ m;
    do ld <- as_Z ld; do sg <- as_Z sg; do a <- as_Z a; do k <- as_oZ k;
    Some (mkRp cs ds vs v5 m ld sg a k)
  | _ => None
  end.
Definition of_rproof (p : rproof) : val :=
  VL [VL (map of_oZ (rp_Cs p)); VL (map of_oZ (rp_Ds p)); VL (map of_oZ (rp_Vs p));
      of_oZ (rp_V5 p); of_oZ (rp_M p); VZ (rp_Ld p); VZ (rp_Sign p); VZ (rp_A p); of_oZ (rp_K p)].
Definition of_rstruct (s : rstruct) : val :=
  VL [VZ (rs_index s); VZ (rs_sign s); VZ (rs_a s); VZ (rs_k s); VZ (rs_ld s); VZ (rs_n s)].
